import Mathlib.LinearAlgebra.Matrix.NonsingularInverse
import Mathlib.LinearAlgebra.Matrix.ToLin
import BronVerif.Lemmas.SharingThreshold
import BronVerif.Lemmas.SharingInsert
/-!
# Hierarchical (Birkhoff–Vandermonde) programmes: what holds without Tassa's Theorem 3

* `spans_mono`, `spans_drop_zero_rows`: `SpansL` survives truncation to fewer columns and removal of
  rows that vanish on the remaining columns;
* `birkhoffEntry_of_lt`: the row of a node of derivative order `j` vanishes in the columns `c < j`;
  `birkhoffEntry_order_zero`: order 0 gives the Vandermonde entry `x^c`;
* `hierRank` facts: members of the first level have order 0, every other shareholder has the
  threshold of some level as its order;
* `hierMSP_rejects_first_level`: the executable `hierMSP` rejects every set with fewer than `t₀`
  members of the first level — unconditionally (no field-size condition needed for this level).
-/
namespace BronVerif.Lemmas.SharingHier
open BronVerif.LinAlg BronVerif.Access BronVerif.Lemmas.SharingAccepts BronVerif.Lemmas.SharingVand
open BronVerif.Lemmas.SharingThreshold BronVerif.Lemmas.SharingModel BronVerif.Lemmas.SharingInsert

variable {F : Type} [Field F]

theorem spans_mono (rows : Mat F) (d d' : ℕ) (h : d' ≤ d) (hs : SpansL rows d) : SpansL rows d' := by
  obtain ⟨x, hx, hsum⟩ := hs
  exact ⟨x, hx, fun j hj => hsum j (by omega)⟩

/-- rows that vanish on all the columns `< d` can be dropped -/
theorem spans_drop_zero_rows {α : Type} (xs : List α) (row : α → List F) (p : α → Bool) (d : ℕ)
    (hz : ∀ a ∈ xs, p a = false → ∀ j < d, (row a).getD j 0 = 0) (hs : SpansL (xs.map row) d) :
    SpansL ((xs.filter p).map row) d := by
  obtain ⟨x, hx, hsum⟩ := hs
  have key : ∀ (xs : List α) (x : List F), x.length = xs.length →
      (∀ a ∈ xs, p a = false → ∀ j < d, (row a).getD j 0 = 0) →
      ∃ y : List F, y.length = (xs.filter p).length ∧
        ∀ j < d, wsum ((xs.filter p).map row) y j = wsum (xs.map row) x j := by
    intro xs
    induction xs with
    | nil => intro x _ _; exact ⟨[], rfl, fun j _ => by simp [wsum, colOf]⟩
    | cons a xs ih =>
      intro x hx hz
      cases x with
      | nil => simp at hx
      | cons w x =>
        simp only [List.length_cons, Nat.add_right_cancel_iff] at hx
        obtain ⟨y, hy, hys⟩ := ih x hx (fun a' ha' => hz a' (List.mem_cons_of_mem _ ha'))
        have hcons : ∀ j, wsum ((a :: xs).map row) (w :: x) j = (row a).getD j 0 * w + wsum (xs.map row) x j := by
          intro j; simp [wsum, colOf]
        by_cases hp : p a = true
        · refine ⟨w :: y, by simp [hp, hy], fun j hj => ?_⟩
          rw [hcons, ← hys j hj]
          simp [hp, wsum, colOf]
        · refine ⟨y, by simp [hp, hy], fun j hj => ?_⟩
          have h0 := hz a List.mem_cons_self (by simpa using hp) j hj
          rw [hcons, h0, zero_mul, zero_add, ← hys j hj]
          simp [hp]
  obtain ⟨y, hy, hys⟩ := key xs x (by simpa using hx) hz
  exact ⟨y, by simpa using hy, fun j hj => by rw [hys j hj, hsum j hj]⟩

/-- only the first `d` columns matter -/
theorem spans_congr (rows rows' : Mat F) (d : ℕ) (hl : rows.length = rows'.length)
    (hc : ∀ j < d, rows.map (·.getD j 0) = rows'.map (·.getD j 0)) (hs : SpansL rows d) :
    SpansL rows' d := by
  obtain ⟨x, hx, hsum⟩ := hs
  refine ⟨x, hx.trans hl, fun j hj => ?_⟩
  rw [← hsum j hj]
  exact (wsum_congr_col rows rows' x j (hc j hj)).symm

variable [DecidableEq F]

/-! ### Birkhoff entries -/

theorem birkhoffEntry_of_lt (c j : ℕ) (x : F) (h : c < j) : birkhoffEntry c x j = 0 := by
  unfold birkhoffEntry
  rw [if_pos h]

theorem fallingFact_zero (c : ℕ) : fallingFact c 0 = 1 := by simp [fallingFact]

theorem powers_getLastD (x : F) (n : ℕ) : (powers x (n + 1)).getLastD 1 = x ^ n := by
  classical
  rw [powers_eq, List.range_succ, List.map_append]
  simp

theorem birkhoffEntry_order_zero (c : ℕ) (x : F) : birkhoffEntry c x 0 = x ^ c := by
  unfold birkhoffEntry
  rw [if_neg (by omega), fallingFact_zero, Nat.sub_zero, powers_getLastD]
  simp

/-! ### ranks -/

theorem go_mem (id : ℕ) : ∀ (ls : List (Int × List ℕ)) (prev : Int) (r : ℕ),
    hierRank.go id prev ls = some r → r = prev.toNat ∨ ∃ l ∈ ls, r = l.1.toNat := by
  intro ls
  induction ls with
  | nil => intro prev r h; simp [hierRank.go] at h
  | cons l ls ih =>
    intro prev r h
    rw [hierRank.go] at h
    split_ifs at h with hc
    · left; exact (Option.some.inj h).symm
    · rcases ih l.1 r h with h1 | ⟨l', hl', h1⟩
      · right; exact ⟨l, List.mem_cons_self, h1⟩
      · right; exact ⟨l', List.mem_cons_of_mem _ hl', h1⟩

theorem go_isSome (id : ℕ) : ∀ (ls : List (Int × List ℕ)) (prev : Int),
    (∃ l ∈ ls, id ∈ l.2) → ∃ r, hierRank.go id prev ls = some r := by
  intro ls
  induction ls with
  | nil => intro prev h; obtain ⟨l, hl, -⟩ := h; cases hl
  | cons l ls ih =>
    intro prev h
    rw [hierRank.go]
    by_cases hc : l.2.contains id = true
    · exact ⟨prev.toNat, by rw [if_pos hc]⟩
    · rw [if_neg hc]
      obtain ⟨l', hl', hid⟩ := h
      rcases List.mem_cons.mp hl' with rfl | hl''
      · exact absurd (List.contains_iff_mem.mpr hid) hc
      · exact ih l.1 ⟨l', hl'', hid⟩

/-- order of a shareholder: 0 in the first level; otherwise the threshold of some level -/
theorem rank_first (t0 : Int) (ids0 : List ℕ) (rest : List (Int × List ℕ)) (id : ℕ) (h : id ∈ ids0) :
    (hierRank ((t0, ids0) :: rest) id).getD 0 = 0 := by
  unfold hierRank
  rw [hierRank.go, if_pos (List.contains_iff_mem.mpr h)]
  rfl

theorem rank_rest (t0 : Int) (ids0 : List ℕ) (rest : List (Int × List ℕ)) (id : ℕ) (h : id ∉ ids0)
    (hin : ∃ l ∈ rest, id ∈ l.2) (hmono : ∀ l ∈ rest, t0 ≤ l.1) :
    t0.toNat ≤ (hierRank ((t0, ids0) :: rest) id).getD 0 := by
  unfold hierRank
  rw [hierRank.go, if_neg (by simpa using h)]
  obtain ⟨r, hr⟩ := go_isSome id rest t0 hin
  rw [hr]
  rcases go_mem id rest t0 r hr with h1 | ⟨l, hl, h1⟩
  · simp [h1]
  · have := hmono l hl
    simp only [Option.getD_some, h1]
    omega

/-- **First level, unconditionally.**  For levels `(t₀, ids₀) :: rest` with `0 < t₀`, later
thresholds at least `t₀`, shareholder IDs distinct and non-zero as field elements, the executable
hierarchical programme rejects every set `S` of shareholders with fewer than `t₀` distinct members of
the first level: the rows of all other members of `S` vanish on the first `t₀` columns, and fewer
than `t₀` Vandermonde rows do not span `e₀`. -/
theorem hierMSP_rejects_first_level (t0 : Int) (ids0 : List ℕ) (rest : List (Int × List ℕ))
    (S : List ℕ) (ht0 : 0 < t0) (hmono : ∀ l ∈ rest, t0 ≤ l.1)
    (hid : Set.InjOn (Nat.cast : ℕ → F) {i | i ∈ (((t0, ids0) :: rest).map (·.2)).flatten})
    (h0 : ∀ i : ℕ, i ∈ (((t0, ids0) :: rest).map (·.2)).flatten → (i : F) ≠ 0)
    (hS : ∀ i ∈ S, i ∈ (((t0, ids0) :: rest).map (·.2)).flatten)
    (hfew : ((sortedSet (((t0, ids0) :: rest).map (·.2)).flatten).filter
      fun id => S.contains id && ids0.contains id).length < t0.toNat) :
    (hierMSP (F := F) ((t0, ids0) :: rest)).accepts S = false := by
  set levels := (t0, ids0) :: rest with hlev
  set all := ((levels.map (·.2)).flatten) with hall
  set hs := sortedSet all with hhs
  set top := topThreshold levels with htop
  have htop_ge : t0.toNat ≤ top := by
    rw [htop, hlev]
    unfold topThreshold
    cases hrest : rest.getLast? with
    | none =>
      have : rest = [] := List.getLast?_eq_none_iff.mp hrest
      subst this; simp
    | some l =>
      have hl : l ∈ rest := List.mem_of_getLast? hrest
      have : ((t0, ids0) :: rest).getLast? = some l := by
        rw [List.getLast?_cons, hrest]; rfl
      rw [this]
      have := hmono l hl
      simp only
      omega
  set row : ℕ → List F := fun (id : ℕ) => (List.range top).map fun c =>
    birkhoffEntry c (id : F) ((hierRank levels id).getD 0) with hrow
  have hmsp : hierMSP (F := F) levels =
      { mat := hs.map row, cols := top, holders := hs.map id } := by
    simp [hierMSP, birkhoffMatrix, hhs, hall, htop, hrow, List.map_map, Function.comp_def]
  by_contra hacc
  have hacc' : (hierMSP (F := F) levels).accepts S = true := by simpa using hacc
  have hSh : ∀ i ∈ S, i ∈ (hierMSP (F := F) levels).holders := by
    intro i hi; rw [hmsp]; simpa using (mem_sortedSet (l := all)).mpr (hS i hi)
  have hpos : 0 < (hierMSP (F := F) levels).cols := by rw [hmsp]; simp only; omega
  have hsp := (accepts_iff' _ S hSh hpos).mp hacc'
  rw [hmsp, sub_eq_filter] at hsp
  simp only [id_eq] at hsp
  -- truncate to the first t₀ columns, drop the rows of the deeper levels
  have hsp1 := spans_mono _ top t0.toNat htop_ge hsp
  set L := hs.filter fun a => S.contains a with hL
  have hzero : ∀ a ∈ L, ids0.contains a = false → ∀ j < t0.toNat, (row a).getD j 0 = 0 := by
    intro a haL hnot j hj
    have hidall : a ∈ all := (mem_sortedSet (l := all)).mp (List.mem_filter.mp haL).1
    have hnotin : a ∉ ids0 := by simpa using hnot
    have hin : ∃ l ∈ rest, a ∈ l.2 := by
      rw [hall, hlev] at hidall
      simp only [List.map_cons, List.flatten_cons, List.mem_append, List.mem_flatten, List.mem_map] at hidall
      rcases hidall with h | ⟨ids, ⟨l, hl, rfl⟩, hmem⟩
      · exact absurd h hnotin
      · exact ⟨l, hl, hmem⟩
    have hrank : t0.toNat ≤ (hierRank levels a).getD 0 := rank_rest t0 ids0 rest a hnotin hin hmono
    have hjt : j < top := by omega
    simp only [hrow, List.getD_eq_getElem?_getD, List.getElem?_map, List.getElem?_range hjt,
      Option.map_some, Option.getD_some]
    exact birkhoffEntry_of_lt j _ _ (by omega)
  have hsp2 := spans_drop_zero_rows L row (fun a => ids0.contains a) t0.toNat hzero hsp1
  set K := L.filter fun a => ids0.contains a with hK
  -- the kept rows are Vandermonde rows in the first t₀ columns
  have hsp3 : SpansL ((K.map (Nat.cast : ℕ → F)).map fun y => (List.range t0.toNat).map fun j => y ^ j)
      t0.toNat := by
    refine spans_congr _ _ _ (by simp) ?_ hsp2
    intro j hj
    rw [List.map_map, List.map_map, List.map_map]
    refine List.map_congr_left fun a ha => ?_
    have ha0 : a ∈ ids0 := by simpa using (List.mem_filter.mp ha).2
    have hr : (hierRank levels a).getD 0 = 0 := rank_first t0 ids0 rest a ha0
    have hjt : j < top := by omega
    simp only [Function.comp_apply, hrow, hr, List.getD_eq_getElem?_getD, List.getElem?_map,
      List.getElem?_range hjt, List.getElem?_range hj, Option.map_some, Option.getD_some,
      birkhoffEntry_order_zero]
  have hKmem : ∀ a ∈ K, a ∈ all := fun a ha =>
    (mem_sortedSet (l := all)).mp (List.mem_filter.mp (List.mem_filter.mp ha).1).1
  have hnd : (K.map (Nat.cast : ℕ → F)).Nodup :=
    List.Nodup.map_on (fun a ha b hb h => hid (hKmem a ha) (hKmem b hb) h)
      (((nodup_sortedSet all).filter _).filter _)
  have hnz : ∀ y ∈ K.map (Nat.cast : ℕ → F), y ≠ 0 := by
    intro y hy
    obtain ⟨a, ha, rfl⟩ := List.mem_map.mp hy
    exact h0 a (hKmem a ha)
  have hle := (spans_vandermonde_iff _ t0.toNat (by omega) hnd hnz).mp hsp3
  rw [List.length_map, hK, hL, List.filter_filter] at hle
  have : (hs.filter fun a => ids0.contains a && S.contains a) =
      hs.filter fun id => S.contains id && ids0.contains id := by
    refine List.filter_congr fun a _ => Bool.and_comm _ _
  rw [this] at hle
  omega

end BronVerif.Lemmas.SharingHier
