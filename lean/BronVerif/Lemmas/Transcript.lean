import BronVerif.Model.Transcript
/-!
Helper lemmas about the hagrid framing model (`Model/Transcript.lean`): the parser inverts the framing,
one framed operation is a prefix code, hence whole histories are uniquely decodable and prefix-ordered.
Core Lean only.
-/
namespace BronVerif.Transcript

theorem readBe64_be64 (n : Nat) (h : n < 2 ^ 64) (rest : Bytes) :
    readBe64 (be64 n ++ rest) = some (n, rest) := by
  simp only [be64, readBe64, List.cons_append, List.nil_append, UInt8.toNat_ofNat']
  congr 2
  omega

theorem be64_length (n : Nat) : (be64 n).length = 8 := rfl

theorem takeN_append (a rest : Bytes) : takeN a.length (a ++ rest) = some (a, rest) := by
  simp [takeN]

theorem readLP_frame (a rest : Bytes) (h : a.length < 2 ^ 64) :
    readLP (be64 a.length ++ (a ++ rest)) = some (a, rest) := by
  rw [readLP, readBe64_be64 _ h, Option.bind_some]
  exact takeN_append a rest

theorem readMsgs_frame (ms : List Bytes) (rest : Bytes) (h : ∀ m ∈ ms, m.length < 2 ^ 64) :
    readMsgs ms.length (frameMsgs ms ++ rest) = some (ms, rest) := by
  induction ms with
  | nil => rfl
  | cons m ms ih =>
    have hm : m.length < 2 ^ 64 := h m (by simp)
    have hms : ∀ x ∈ ms, x.length < 2 ^ 64 := fun x hx => h x (by simp [hx])
    show readMsgs (ms.length + 1) ((be64 m.length ++ (m ++ frameMsgs ms)) ++ rest) = _
    rw [readMsgs, List.append_assoc, List.append_assoc, readLP_frame m _ hm, Option.bind_some]
    show (readMsgs ms.length (frameMsgs ms ++ rest)).bind _ = _
    rw [ih hms, Option.bind_some]

theorem parseOne_cons (t : UInt8) (bs : Bytes) : parseOne (t :: bs) =
    if t = domainTag then parseDomSep bs
    else if t = appendTag then parseAppend bs
    else if t = extractTag then parseExtract bs
    else none := rfl

/-- the parser recovers a framed operation and leaves exactly what followed it -/
theorem parseOne_frameOp (op : Op) (rest : Bytes) (h : op.ok) :
    parseOne (frameOp op ++ rest) = some (op, rest) := by
  cases op with
  | domSep tag =>
    have h' : tag.length < 2 ^ 64 := h
    show parseOne (domainTag :: ((be64 tag.length ++ tag) ++ rest)) = _
    rw [List.append_assoc, parseOne_cons, if_pos rfl, parseDomSep, readLP_frame tag rest h',
      Option.bind_some]
  | append label msgs =>
    obtain ⟨hl, hc, hm⟩ := h
    have h1 : appendTag ≠ domainTag := by decide
    show parseOne (appendTag ::
      ((be64 label.length ++ (label ++ (be64 msgs.length ++ frameMsgs msgs))) ++ rest)) = _
    rw [parseOne_cons, if_neg h1, if_pos rfl, parseAppend, List.append_assoc, List.append_assoc,
      List.append_assoc, readLP_frame label _ hl, Option.bind_some]
    show (readBe64 (be64 msgs.length ++ (frameMsgs msgs ++ rest))).bind _ = _
    rw [readBe64_be64 _ hc, Option.bind_some]
    show (readMsgs msgs.length (frameMsgs msgs ++ rest)).bind _ = _
    rw [readMsgs_frame msgs rest hm, Option.bind_some]
  | extract label n =>
    obtain ⟨hl, hn⟩ := h
    have h1 : extractTag ≠ domainTag := by decide
    have h2 : extractTag ≠ appendTag := by decide
    show parseOne (extractTag ::
      ((be64 label.length ++ (label ++ (be64 n ++ [continuedTag]))) ++ rest)) = _
    rw [parseOne_cons, if_neg h1, if_neg h2, if_pos rfl, parseExtract, List.append_assoc,
      List.append_assoc, List.append_assoc, readLP_frame label _ hl, Option.bind_some]
    show (readBe64 (be64 n ++ ([continuedTag] ++ rest))).bind _ = _
    rw [readBe64_be64 _ hn, Option.bind_some]
    show parseFork label n (continuedTag :: rest) = _
    rw [parseFork, if_pos rfl]
  | extracted label n =>
    obtain ⟨hl, hn⟩ := h
    have h1 : extractTag ≠ domainTag := by decide
    have h2 : extractTag ≠ appendTag := by decide
    have h3 : extractedTag ≠ continuedTag := by decide
    show parseOne (extractTag ::
      ((be64 label.length ++ (label ++ (be64 n ++ [extractedTag]))) ++ rest)) = _
    rw [parseOne_cons, if_neg h1, if_neg h2, if_pos rfl, parseExtract, List.append_assoc,
      List.append_assoc, List.append_assoc, readLP_frame label _ hl, Option.bind_some]
    show (readBe64 (be64 n ++ ([extractedTag] ++ rest))).bind _ = _
    rw [readBe64_be64 _ hn, Option.bind_some]
    show parseFork label n (extractedTag :: rest) = _
    rw [parseFork, if_neg h3, if_pos rfl]

theorem frameOp_ne_nil (op : Op) : frameOp op ≠ [] := by
  cases op <;> simp [frameOp]

/-- one framed operation is a prefix code: what follows it is determined, and so is the operation -/
theorem frameOp_append_inj {a b : Op} {X Y : Bytes} (ha : a.ok) (hb : b.ok)
    (h : frameOp a ++ X = frameOp b ++ Y) : a = b ∧ X = Y := by
  have h1 := parseOne_frameOp a X ha
  rw [h, parseOne_frameOp b Y hb] at h1
  simp only [Option.some.injEq, Prod.mk.injEq] at h1
  exact ⟨h1.1.symm, h1.2.symm⟩

theorem frame_append (a b : List Op) : frame (a ++ b) = frame a ++ frame b := by
  induction a with
  | nil => rfl
  | cons x xs ih => simp [frame, ih]

theorem frame_singleton (op : Op) : frame [op] = frameOp op := by simp [frame]

theorem frame_cons_ne_nil (op : Op) (ops : List Op) : frame (op :: ops) ≠ [] := by
  simp [frame, frameOp_ne_nil]

theorem parseAux_frame (ops : List Op) (h : ∀ op ∈ ops, op.ok) :
    ∀ fuel, ops.length ≤ fuel → parseAux fuel (frame ops) = some ops := by
  induction ops with
  | nil => intro fuel _; cases fuel <;> rfl
  | cons op ops ih =>
    intro fuel hf
    cases fuel with
    | zero => simp at hf
    | succ f =>
      have hne : (frame (op :: ops)).isEmpty = false := by
        simpa [List.isEmpty_iff] using frame_cons_ne_nil op ops
      have hop : op.ok := h op (by simp)
      have hops : ∀ x ∈ ops, x.ok := fun x hx => h x (by simp [hx])
      have hlen : ops.length ≤ f := by simpa using hf
      rw [parseAux, hne, if_neg (by simp)]
      show (parseOne (frameOp op ++ frame ops)).bind _ = _
      rw [parseOne_frameOp op _ hop, Option.bind_some]
      show (parseAux f (frame ops)).bind _ = _
      rw [ih hops f hlen, Option.bind_some]

theorem length_le_frame_length (ops : List Op) : ops.length ≤ (frame ops).length := by
  induction ops with
  | nil => simp
  | cons op ops ih =>
    have : 1 ≤ (frameOp op).length := by
      cases op <;> simp [frameOp]
    simp only [frame, List.length_append, List.length_cons]
    omega

/-- `frame a ++ Z = frame b` only if `a` is an initial segment of the history `b` -/
theorem frame_prefix {a b : List Op} {Z : Bytes} (ha : ∀ op ∈ a, op.ok) (hb : ∀ op ∈ b, op.ok)
    (h : frame a ++ Z = frame b) : ∃ c, b = a ++ c ∧ Z = frame c := by
  induction a generalizing b with
  | nil => exact ⟨b, rfl, by simpa [frame] using h⟩
  | cons x xs ih =>
    cases b with
    | nil =>
      exfalso
      have : frame (x :: xs) = [] := by
        have := congrArg List.length h
        simp only [List.length_append, frame, List.length_nil] at this
        exact List.eq_nil_of_length_eq_zero (by simp only [frame, List.length_append]; omega)
      exact frame_cons_ne_nil x xs this
    | cons y ys =>
      simp only [frame, List.append_assoc] at h
      have hx : x.ok := ha x (by simp)
      have hy : y.ok := hb y (by simp)
      obtain ⟨hxy, hrest⟩ := frameOp_append_inj hx hy h
      obtain ⟨c, hc, hZ⟩ := ih (fun o ho => ha o (by simp [ho])) (fun o ho => hb o (by simp [ho])) hrest
      exact ⟨c, by simp [hxy, hc], hZ⟩

end BronVerif.Transcript
