import Mathlib.NumberTheory.LegendreSymbol.JacobiSymbol
import Mathlib.Tactic.Ring
import Mathlib.Tactic.Positivity
import BronVerif.Model.BigNum
/-!
# The binary Kronecker loop of `nt/jacobi_purego.go` computes Mathlib's Jacobi symbol

`jacobiLoop_eq`: for odd `b`, `jacobiLoop fuel a b ret = ret * J(a | b)` whenever `a < fuel`
(so the fuel `a + 1` used by `BigNum.jacobi` always suffices: `a` strictly decreases).
-/
namespace BronVerif.Lemmas.Jacobi
open BronVerif.BigNum
open scoped NumberTheorySymbols

theorem lt_two_pow_bitLen (n : Nat) : n < 2 ^ bitLen n := by
  unfold bitLen
  by_cases h : n = 0
  · simp [h]
  · simp only [h, if_false]; exact Nat.lt_log2_self

/-- `twoAdic` splits `n ≠ 0` into `2^s * q` with `q` odd -/
theorem twoAdic_spec : ∀ (fuel n : Nat), n ≠ 0 → n < 2 ^ fuel →
    n = 2 ^ (twoAdic fuel n).1 * (twoAdic fuel n).2 ∧ (twoAdic fuel n).2 % 2 = 1 := by
  intro fuel
  induction fuel with
  | zero => intro n hn h; simp at h; omega
  | succ f ih =>
    intro n hn h
    unfold twoAdic
    by_cases he : n % 2 = 0 ∧ n ≠ 0
    · rw [if_pos he]
      have hn2 : n / 2 ≠ 0 := by omega
      have hlt : n / 2 < 2 ^ f := by rw [pow_succ] at h; omega
      obtain ⟨h1, h2⟩ := ih (n / 2) hn2 hlt
      dsimp only
      refine ⟨?_, h2⟩
      have e : n = 2 * (n / 2) := by omega
      calc n = 2 * (n / 2) := e
        _ = 2 * (2 ^ (twoAdic f (n / 2)).1 * (twoAdic f (n / 2)).2) := by rw [← h1]
        _ = 2 ^ ((twoAdic f (n / 2)).1 + 1) * (twoAdic f (n / 2)).2 := by ring
    · rw [if_neg he]
      refine ⟨by simp, ?_⟩
      dsimp only
      omega

theorem jacobiTab_pm (b : Nat) (hb : b % 2 = 1) : jacobiTab b = 1 ∨ jacobiTab b = -1 := by
  unfold jacobiTab
  have : b % 8 = 1 ∨ b % 8 = 3 ∨ b % 8 = 5 ∨ b % 8 = 7 := by omega
  rcases this with h | h | h | h <;> simp [h]

/-- the table `jacobiTab` is the supplementary law `J(2 | b) = χ₈ b` -/
theorem jacobiTab_eq (b : Nat) (hb : b % 2 = 1) : jacobiTab b = J(2 | b) := by
  rw [jacobiSym.at_two (Nat.odd_iff.mpr hb), ZMod.χ₈_nat_eq_if_mod_eight]
  unfold jacobiTab
  have : b % 8 = 1 ∨ b % 8 = 3 ∨ b % 8 = 5 ∨ b % 8 = 7 := by omega
  have hb' : ¬ b % 2 = 0 := by omega
  rcases this with h | h | h | h <;> simp [h, hb']

theorem pm_pow (t : Int) (ht : t = 1 ∨ t = -1) (s : Nat) : t ^ s = if s % 2 = 1 then t else 1 := by
  have hsq : t ^ 2 = 1 := by rcases ht with h | h <;> rw [h] <;> norm_num
  rcases Nat.even_or_odd' s with ⟨k, hk | hk⟩
  · have : ¬ s % 2 = 1 := by omega
    rw [if_neg this, hk, pow_mul, hsq, one_pow]
  · have : s % 2 = 1 := by omega
    rw [if_pos this, hk, pow_succ, pow_mul, hsq, one_pow, one_mul]

theorem jacobiLoop_eq : ∀ (fuel a b : Nat) (ret : Int), b % 2 = 1 → a < fuel →
    jacobiLoop fuel a b ret = ret * J((a : ℤ) | b) := by
  intro fuel
  induction fuel with
  | zero => intro a b ret _ h; omega
  | succ f ih =>
    intro a b ret hb ha
    unfold jacobiLoop
    by_cases ha0 : a = 0
    · subst ha0
      rw [if_pos rfl]
      by_cases hb1 : b = 1
      · subst hb1; simp [jacobiSym.one_right]
      · have h1 : 1 < b := by omega
        rw [if_neg hb1]
        simp [jacobiSym.zero_left h1]
    · rw [if_neg ha0]
      obtain ⟨hspec, hodd⟩ := twoAdic_spec (bitLen a) a ha0 (lt_two_pow_bitLen a)
      dsimp only
      generalize hs : (twoAdic (bitLen a) a).1 = s at hspec
      generalize ha' : (twoAdic (bitLen a) a).2 = a' at hspec hodd
      have ha'pos : 0 < a' := by omega
      have ha'le : a' ≤ a := by
        rw [hspec]; exact Nat.le_mul_of_pos_left _ (by positivity)
      have hlt : b % a' < f := by
        have := Nat.mod_lt b ha'pos; omega
      rw [ih _ _ _ hodd hlt]
      have hJa : J((a : ℤ) | b) = J(2 | b) ^ s * J((a' : ℤ) | b) := by
        conv_lhs => rw [hspec]
        push_cast
        rw [jacobiSym.mul_left, jacobiSym.pow_left]
      have hrec := jacobiSym.quadratic_reciprocity_if hodd hb
      have hmod : J(((b % a' : ℕ) : ℤ) | a') = J((b : ℤ) | a') := by
        rw [Int.natCast_mod, ← jacobiSym.mod_left]
      rw [hJa, ← hrec, hmod, ← jacobiTab_eq b hb, pm_pow _ (jacobiTab_pm b hb)]
      split_ifs <;> ring

/-- **The mirrored (correct) binary algorithm is the Jacobi symbol**, for every integer numerator and
every odd positive denominator. -/
theorem jacobi_eq (x : Int) (y : Nat) (hy : y % 2 = 1) : jacobi x y = J(x | y) := by
  unfold jacobi
  dsimp only
  rw [jacobiLoop_eq _ _ _ _ hy (Nat.lt_succ_self _), one_mul]
  by_cases hx : x < 0
  · rw [if_pos hx]
    have hy0 : (y : ℤ) ≠ 0 := by omega
    rw [Int.toNat_of_nonneg (Int.emod_nonneg x hy0), ← jacobiSym.mod_left]
  · rw [if_neg hx, Int.toNat_of_nonneg (by omega)]

end BronVerif.Lemmas.Jacobi
