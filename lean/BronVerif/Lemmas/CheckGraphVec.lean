import BronVerif.Model.CheckGraphVec
import Mathlib.Algebra.BigOperators.Group.List.Basic
import Mathlib.Algebra.Group.Basic
import Mathlib.Tactic.Abel
/-! Lemmas about the per-component and the summed form of a vector check (`CheckGraph.Vec`), used by
`Props/C04.lean`. -/
namespace BronVerif.CheckGraph.Vec

variable {K X : Type}

theorem perComponent_nil_nil (check : K → X → Bool) : perComponent check [] [] = true := by
  simp [perComponent]

theorem perComponent_cons_cons (check : K → X → Bool) (k : K) (ks : List K) (x : X) (xs : List X) :
    perComponent check (k :: ks) (x :: xs) = (check k x && perComponent check ks xs) := by
  simp only [perComponent, List.length_cons, List.zipWith_cons_cons, List.all_cons, id_eq]
  have h : (ks.length + 1 == xs.length + 1) = (ks.length == xs.length) := by simp
  rw [h]
  cases (ks.length == xs.length) <;> cases check k x <;> simp

/-- the per-component form accepts iff the lengths agree and EVERY component passes -/
theorem perComponent_iff (check : K → X → Bool) (keys : List K) (xs : List X) :
    perComponent check keys xs = true ↔
      keys.length = xs.length ∧
        ∀ i (h1 : i < keys.length) (h2 : i < xs.length), check keys[i] xs[i] = true := by
  induction keys generalizing xs with
  | nil =>
    cases xs with
    | nil => simp [perComponent]
    | cons x xs => simp [perComponent]
  | cons k ks ih =>
    cases xs with
    | nil => simp [perComponent]
    | cons x xs =>
      rw [perComponent_cons_cons, Bool.and_eq_true, ih]
      constructor
      · rintro ⟨h0, hl, hall⟩
        refine ⟨by simp [hl], ?_⟩
        intro i h1 h2
        cases i with
        | zero => simpa using h0
        | succ i =>
          simp only [List.getElem_cons_succ]
          exact hall i (by simpa using h1) (by simpa using h2)
      · rintro ⟨hl, hall⟩
        refine ⟨hall 0 (by simp) (by simp), by simpa using hl, ?_⟩
        intro i h1 h2
        have := hall (i + 1) (by simpa using h1) (by simpa using h2)
        simpa using this

/-- **Binding of the family.** If each key admits at most one passing value, two vectors accepted by
the per-component form under the same keys are equal. -/
theorem perComponent_unique (check : K → X → Bool)
    (hbind : ∀ k a b, check k a = true → check k b = true → a = b)
    (keys : List K) (xs xs' : List X)
    (h : perComponent check keys xs = true) (h' : perComponent check keys xs' = true) : xs' = xs := by
  obtain ⟨hl, hall⟩ := (perComponent_iff check keys xs).1 h
  obtain ⟨hl', hall'⟩ := (perComponent_iff check keys xs').1 h'
  apply List.ext_getElem (by omega)
  intro i h1 h2
  exact hbind keys[i] _ _ (hall' i (by omega) h1) (hall i (by omega) h2)

theorem set_ne_self (xs : List X) (i : Nat) (hi : i < xs.length) (a : X) (ha : a ≠ xs[i]) :
    xs.set i a ≠ xs := by
  intro h
  have h1 : (xs.set i a)[i]'(by simpa using hi) = a := List.getElem_set_self _
  have h2 : (xs.set i a)[i]'(by simpa using hi) = xs[i] := by simp only [h]
  exact ha (h1.symm.trans h2)

variable {G : Type} [AddCommGroup G]

theorem total_eq_sum (xs : List G) : total xs = xs.sum := by
  unfold total
  exact (List.sum_eq_foldl).symm

/-- a paired shift leaves the sum of the vector unchanged -/
theorem total_pairedShift (xs : List G) (i j : Nat) (hij : i ≠ j) (d : G) :
    total (pairedShift xs i j d) = total xs := by
  unfold pairedShift
  cases hi : xs[i]? with
  | none => simp
  | some a =>
    cases hj : xs[j]? with
    | none => simp
    | some b =>
      simp only
      obtain ⟨hi', rfl⟩ := List.getElem?_eq_some_iff.1 hi
      obtain ⟨hj', rfl⟩ := List.getElem?_eq_some_iff.1 hj
      rw [total_eq_sum, total_eq_sum, List.sum_set', List.sum_set']
      have hj'' : j < (xs.set i (xs[i] + d)).length := by simpa using hj'
      simp only [hj'', hi', dite_true, List.getElem_set_ne hij]
      abel

end BronVerif.CheckGraph.Vec
