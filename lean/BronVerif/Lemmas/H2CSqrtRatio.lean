import Mathlib.Tactic.Ring
import Mathlib.Tactic.FieldSimp
import Mathlib.Tactic.LinearCombination
import Mathlib.Algebra.Field.Basic
import Mathlib.Algebra.Group.Even
import BronVerif.Lemmas.H2CSswu
/-!
# The GENERATED generic `sqrt_ratio` (`Gen/H2CMaps.sqrtRatio` + `sqrtRatioLoop`, from `SqrtRatio` in sqrt.go;
RFC 9380 §F.2.1.1) meets its specification

`q - 1 = 2^c1 · c2`, `c2 = 2·c3 + 1`, `c4 = 2^c1 - 1`, `c5 = 2^(c1-1)`, `c6 = Z^c2`, `c7 = Z^((c2+1)/2)`.
With `t = u·v^(2·c4+1)` the straight-line part computes `tv3 = t^c3·v^c4·u` and `tv4 = t^c2` with
`tv3²·v = tv4·u`; `tv4` has order dividing `2^c1`, and the loop (a Tonelli–Shanks descent, `i = c1 … 2`) keeps
`tv3²·v = tv4·U`, `tv4^(2^(i-1)) = 1`, `tv1^(2^(i-1)) = -1` until `tv4 = 1`.

The routine answers `(false, 0)` for `u = 0` (`0^c5 ≠ 1`), exactly like the RFC pseudocode: the non-square clause
of the specification therefore only holds for `u ≠ 0` (`SqrtRatioSpecW`); `sqrtRatio_zero` records this, and
`sswu_on_curve_w` shows that the weaker specification suffices for the SSWU map when `g(B/(Z·A)) ≠ 0`.
-/
namespace BronVerif.Lemmas.H2CSqrt
open BronVerif.Gen.H2CMaps BronVerif.Lemmas.H2CSswu

variable {F : Type} [Field F] [DecidableEq F]

/-- `SqrtRatioSpec` with the non-square clause restricted to `u ≠ 0` (what RFC 9380 F.2.1.1 delivers: for
`u = 0` it answers `(false, 0)`) -/
structure SqrtRatioSpecW (Z : F) (sr : F → F → Bool × F) : Prop where
  sq : ∀ u v, v ≠ 0 → (sr u v).1 = true → (sr u v).2 ^ 2 * v = u
  nsq : ∀ u v, v ≠ 0 → (sr u v).1 = false → (sr u v).2 ^ 2 * v = Z * u ∧ (u ≠ 0 → ¬ IsSquare (u / v))

omit [DecidableEq F] in
theorem SqrtRatioSpec.toW {Z : F} {sr : F → F → Bool × F} (h : SqrtRatioSpec Z sr) : SqrtRatioSpecW Z sr :=
  ⟨h.sq, fun u v hv hb => ⟨(h.nsq u v hv hb).1, fun _ => (h.nsq u v hv hb).2⟩⟩

/-! ### the loop -/

theorem loop_succ (fpow : F → Nat → F) (c1 c3 c4 c5 n : Nat) (tv1 tv2 tv3 tv4 tv5 : F) :
    sqrtRatioLoop fpow c1 c3 c4 c5 (n + 1) tv1 tv2 tv3 tv4 tv5 =
      sqrtRatioLoop fpow c1 c3 c4 c5 n (tv1 * tv1) (tv3 * tv1)
        (if (fpow tv4 (1 <<< (n + 2 - 2)) == 1) then tv3 else tv3 * tv1)
        (if (fpow tv4 (1 <<< (n + 2 - 2)) == 1) then tv4 else tv4 * (tv1 * tv1)) (tv4 * (tv1 * tv1)) := rfl

/-- a zero `tv3` stays zero -/
theorem loop_tv3_zero (fpow : F → Nat → F) (c1 c3 c4 c5 : Nat) :
    ∀ n (tv1 tv2 tv4 tv5 : F), (sqrtRatioLoop fpow c1 c3 c4 c5 n tv1 tv2 0 tv4 tv5).2.2.1 = 0 := by
  intro n
  induction n with
  | zero => intros; rfl
  | succ n ih =>
    intro tv1 tv2 tv4 tv5
    rw [loop_succ]
    simp only [zero_mul, ite_self]
    exact ih _ _ _ _

omit [DecidableEq F] in
theorem sq_eq_one {x : F} (h : x ^ 2 = 1) : x = 1 ∨ x = -1 := by
  have : (x - 1) * (x + 1) = 0 := by linear_combination h
  rcases mul_eq_zero.mp this with h | h
  · left; linear_combination h
  · right; linear_combination h

/-- **Loop invariant ⇒ result.**  With `n` iterations to go (`i = n + 1`, …, `2`): if `tv4^(2^n) = 1`,
`tv1^(2^n) = -1` and `tv3²·v = tv4·U`, the loop returns `tv3` with `tv3²·v = U`. -/
theorem loop_spec (fpow : F → Nat → F) (hpow : ∀ a e, fpow a e = a ^ e) (c1 c3 c4 c5 : Nat) (v U : F) :
    ∀ n (tv1 tv2 tv3 tv4 tv5 : F), tv4 ^ (2 ^ n) = 1 → tv1 ^ (2 ^ n) = -1 → tv3 ^ 2 * v = tv4 * U →
      (sqrtRatioLoop fpow c1 c3 c4 c5 n tv1 tv2 tv3 tv4 tv5).2.2.1 ^ 2 * v = U := by
  intro n
  induction n with
  | zero =>
    intro tv1 tv2 tv3 tv4 tv5 h4 _ h3
    simp only [pow_zero, pow_one] at h4
    show tv3 ^ 2 * v = U
    rw [h3, h4, one_mul]
  | succ n ih =>
    intro tv1 tv2 tv3 tv4 tv5 h4 h1 h3
    rw [loop_succ, hpow, Nat.add_sub_cancel, Nat.one_shiftLeft]
    have h1' : (tv1 * tv1) ^ (2 ^ n) = -1 := by
      rw [← pow_two, ← pow_mul, ← pow_succ']; exact h1
    by_cases he : tv4 ^ (2 ^ n) = 1
    · have hb : (tv4 ^ (2 ^ n) == 1) = true := by simpa using he
      simp only [hb, if_true]
      exact ih _ _ _ _ _ he h1' h3
    · have hb : (tv4 ^ (2 ^ n) == 1) = false := by simpa using he
      simp only [hb, Bool.false_eq_true, if_false]
      have hm : tv4 ^ (2 ^ n) = -1 := by
        have : (tv4 ^ (2 ^ n)) ^ 2 = 1 := by rw [← pow_mul, ← pow_succ]; exact h4
        exact (sq_eq_one this).resolve_left he
      refine ih _ _ _ _ _ ?_ h1' ?_
      · rw [mul_pow, hm, h1']; ring
      · linear_combination (tv1 ^ 2) * h3

/-! ### the straight-line part -/

theorem sqrtRatio_eq (fpow : F → Nat → F) (c1 c3 c4 c5 : Nat) (c6 c7 u v : F) :
    sqrtRatio fpow c1 c3 c4 c5 c6 c7 u v =
      (let s := fpow (u * (fpow v c4 * fpow v c4 * v)) c3 * fpow v c4
       let T := s * u * (s * v)
       ((fpow T c5 == 1),
        (sqrtRatioLoop fpow c1 c3 c4 c5 (c1 - 1) c6 (s * u * c7)
          (if (fpow T c5 == 1) then s * u else s * u * c7)
          (if (fpow T c5 == 1) then T else T * c6) (T * c6)).2.2.1)) := rfl

/-- the generic routine answers `(false, 0)` for `u = 0` (so it cannot meet the strict `SqrtRatioSpec`, whose
non-square clause would claim that `0` is not a square) -/
theorem sqrtRatio_zero (fpow : F → Nat → F) (hpow : ∀ a e, fpow a e = a ^ e) (c1 c3 c4 c5 : Nat) (c6 c7 v : F)
    (hc5 : c5 ≠ 0) : sqrtRatio fpow c1 c3 c4 c5 c6 c7 0 v = (false, 0) := by
  rw [sqrtRatio_eq]
  simp only [mul_zero, zero_mul, hpow, zero_pow hc5]
  have hb : ((0 : F) == 1) = false := by simp
  simp only [hb, Bool.false_eq_true, if_false]
  rw [loop_tv3_zero]

/-- the two possible answers of the generated generic `sqrt_ratio`, for `v ≠ 0` -/
theorem sqrtRatio_cases (Z : F) (fpow : F → Nat → F) (hpow : ∀ a e, fpow a e = a ^ e)
    (k c3 c4 c5 : Nat) (c6 c7 : F) (hc5 : c5 = 2 ^ k)
    (hc6 : c6 = Z ^ (2 * c3 + 1)) (hc7 : c7 = Z ^ (c3 + 1))
    (hF : ∀ a : F, a ≠ 0 → a ^ (2 ^ (k + 1) * (2 * c3 + 1)) = 1) (hZ : Z ^ (2 ^ k * (2 * c3 + 1)) = -1)
    (u v : F) (hv : v ≠ 0) :
    ((sqrtRatio fpow (k + 1) c3 c4 c5 c6 c7 u v).1 = true ∧
        (sqrtRatio fpow (k + 1) c3 c4 c5 c6 c7 u v).2 ^ 2 * v = u) ∨
    ((sqrtRatio fpow (k + 1) c3 c4 c5 c6 c7 u v).1 = false ∧
        (sqrtRatio fpow (k + 1) c3 c4 c5 c6 c7 u v).2 ^ 2 * v = Z * u ∧ (u ≠ 0 → ¬ IsSquare (u / v))) := by
  by_cases hu : u = 0
  · subst hu
    rw [sqrtRatio_zero fpow hpow _ _ _ _ _ _ _ (by rw [hc5]; exact (Nat.pos_of_ne_zero (by simp)).ne')]
    right
    exact ⟨rfl, by ring, fun h => absurd rfl h⟩
  rw [sqrtRatio_eq]
  simp only [hpow, Nat.add_sub_cancel]
  set b := v ^ c4 with hb
  set t := u * (b * b * v) with ht
  set a := t ^ c3 with ha
  have hb0 : b ≠ 0 := pow_ne_zero _ hv
  have ht0 : t ≠ 0 := mul_ne_zero hu (mul_ne_zero (mul_ne_zero hb0 hb0) hv)
  have hT : a * b * u * (a * b * v) = t ^ (2 * c3 + 1) := by
    rw [ha, ht]; ring
  rw [hT, hc5]
  set T := t ^ (2 * c3 + 1) with hTdef
  have hT2 : (T ^ (2 ^ k)) ^ 2 = 1 := by
    rw [hTdef, ← pow_mul, ← pow_mul, ← hF t ht0]
    congr 1; ring
  have h61 : c6 ^ (2 ^ k) = -1 := by
    rw [hc6, ← pow_mul, ← hZ]; congr 1; ring
  have hrel : (a * b * u) ^ 2 * v = T * u := by
    rw [← hT]; ring
  by_cases hq : T ^ (2 ^ k) = 1
  · left
    have hbq : (T ^ (2 ^ k) == 1) = true := by simpa using hq
    simp only [hbq, if_true, true_and]
    exact loop_spec fpow hpow _ _ _ _ v u k _ _ _ _ _ hq h61 hrel
  · right
    have hbq : (T ^ (2 ^ k) == 1) = false := by simpa using hq
    simp only [hbq, Bool.false_eq_true, if_false, true_and]
    have hm : T ^ (2 ^ k) = -1 := (sq_eq_one hT2).resolve_left hq
    refine ⟨loop_spec fpow hpow _ _ _ _ v (Z * u) k _ _ _ _ _ ?_ h61 ?_, ?_⟩
    · rw [mul_pow, hm, h61]; ring
    · have h7 : c7 ^ 2 = c6 * Z := by rw [hc6, hc7]; ring
      linear_combination (c7 ^ 2) * hrel + (a * b * u) ^ 2 * v * 0 + (T * u) * h7
    · rintro - ⟨r, hr⟩
      apply hq
      have hr0 : r ≠ 0 := by
        rintro rfl
        apply hu
        field_simp at hr
        simpa using hr
      have hur : u = r * r * v := by
        field_simp at hr
        linear_combination hr
      have htw : t = (r * v * b) ^ 2 := by rw [ht, hur]; ring
      rw [hTdef, htw, ← pow_mul, ← pow_mul,
        ← hF (r * v * b) (mul_ne_zero (mul_ne_zero hr0 hv) hb0)]
      congr 1; ring

/-- **The generated generic `sqrt_ratio` meets the (RFC-strength) specification.**
`c1 = k + 1 ≥ 1`, `c5 = 2^(c1-1)`, `c6 = Z^c2`, `c7 = Z^((c2+1)/2)` with `c2 = 2·c3 + 1`; `fpow` is exponentiation;
`a^(q-1) = 1` for `a ≠ 0` with `q - 1 = 2^c1·c2`; `Z^((q-1)/2) = -1`.  (`c4` is unconstrained: any odd power
`v^(2·c4+1)` works.) -/
theorem sqrtRatio_spec (Z : F) (fpow : F → Nat → F) (hpow : ∀ a e, fpow a e = a ^ e)
    (k c3 c4 c5 : Nat) (c6 c7 : F) (hc5 : c5 = 2 ^ k)
    (hc6 : c6 = Z ^ (2 * c3 + 1)) (hc7 : c7 = Z ^ (c3 + 1))
    (hF : ∀ a : F, a ≠ 0 → a ^ (2 ^ (k + 1) * (2 * c3 + 1)) = 1) (hZ : Z ^ (2 ^ k * (2 * c3 + 1)) = -1) :
    SqrtRatioSpecW Z (sqrtRatio fpow (k + 1) c3 c4 c5 c6 c7) := by
  constructor
  · intro u v hv hb
    rcases sqrtRatio_cases Z fpow hpow k c3 c4 c5 c6 c7 hc5 hc6 hc7 hF hZ u v hv with h | h
    · exact h.2
    · rw [h.1] at hb; exact absurd hb (by simp)
  · intro u v hv hb
    rcases sqrtRatio_cases Z fpow hpow k c3 c4 c5 c6 c7 hc5 hc6 hc7 hF hZ u v hv with h | h
    · rw [h.1] at hb; exact absurd hb (by simp)
    · exact h.2

/-! ### SSWU under the weaker specification -/

omit [DecidableEq F] in
theorem finish_on_curve_w {A B Z : F} {sr : F → F → Bool × F} (sgn0 : F → Bool) (hsr : SqrtRatioSpecW Z sr)
    {u tv1 tv3 tv4 gxn tv6 : F} (h4 : tv4 ≠ 0) (h6 : tv6 = tv4 ^ 3)
    (hg : gxn = tv3 ^ 3 + A * tv3 * tv4 ^ 2 + B * tv4 ^ 3) (h1 : tv1 = Z * u ^ 2)
    (hbr : (sr gxn tv6).1 = false → tv1 ^ 3 * gxn = (tv1 * tv3) ^ 3 + A * (tv1 * tv3) * tv4 ^ 2 + B * tv4 ^ 3) :
    (finish sr sgn0 u tv1 tv3 tv4 gxn tv6).2 ^ 2 =
      (finish sr sgn0 u tv1 tv3 tv4 gxn tv6).1 ^ 3 + A * (finish sr sgn0 u tv1 tv3 tv4 gxn tv6).1 + B := by
  subst h6
  have h6' : tv4 ^ 3 ≠ 0 := pow_ne_zero 3 h4
  simp only [finish, neg_ite_sq]
  cases hb : (sr gxn (tv4 ^ 3)).1
  · obtain ⟨hy, -⟩ := hsr.nsq gxn _ h6' hb
    have hk := hbr hb
    simp only [Bool.false_eq_true, if_false]
    field_simp
    linear_combination (tv1 ^ 2 * u ^ 2) * hy + hk - (tv1 ^ 2 * gxn) * h1
  · have hy := hsr.sq gxn _ h6' hb
    simp only [if_true]
    field_simp
    linear_combination hy + hg

/-- `sswu_on_curve` with the weaker `SqrtRatioSpecW` (met by the generic routine): the extra price is that
`g(B/(Z·A))` must be a NON-ZERO square (true for every suite: the curves have no 2-torsion point there). -/
theorem sswu_on_curve_w (A B Z : F) (mulByA mulByB : F → F) (sr : F → F → Bool × F) (sgn0 : F → Bool)
    (hA : ∀ x, mulByA x = A * x) (hB : ∀ x, mulByB x = B * x)
    (hA0 : A ≠ 0) (hZ : ¬ IsSquare Z) (hsr : SqrtRatioSpecW Z sr)
    (hexc : IsSquare ((B / (Z * A)) ^ 3 + A * (B / (Z * A)) + B))
    (hexc0 : (B / (Z * A)) ^ 3 + A * (B / (Z * A)) + B ≠ 0) (u : F) :
    (sswu Z mulByA mulByB sr sgn0 u).2 ^ 2 =
      (sswu Z mulByA mulByB sr sgn0 u).1 ^ 3 + A * (sswu Z mulByA mulByB sr sgn0 u).1 + B := by
  have hZ0 : Z ≠ 0 := fun h => hZ (h ▸ ⟨0, by simp⟩)
  rw [sswu_eq_finish]
  simp only [hA, hB]
  by_cases h2 : Z * (u * u) * (Z * (u * u)) + Z * (u * u) = 0
  · simp only [h2, bne_self_eq_false, zero_add, mul_one, Bool.false_eq_true, if_false]
    have h4 : A * Z ≠ 0 := mul_ne_zero hA0 hZ0
    refine finish_on_curve_w sgn0 hsr h4 (by ring) (by ring) (by ring) ?_
    intro hb
    exfalso
    have h6 : A * Z * (A * Z) * (A * Z) ≠ 0 := mul_ne_zero (mul_ne_zero h4 h4) h4
    have hval : (B * B + A * (A * Z * (A * Z))) * B + B * (A * Z * (A * Z) * (A * Z)) =
        ((B / (Z * A)) ^ 3 + A * (B / (Z * A)) + B) * (A * Z * (A * Z) * (A * Z)) := by
      field_simp
    have hg0 : (B * B + A * (A * Z * (A * Z))) * B + B * (A * Z * (A * Z) * (A * Z)) ≠ 0 := by
      rw [hval]; exact mul_ne_zero hexc0 h6
    refine (hsr.nsq _ _ h6 hb).2 hg0 ?_
    rw [hval, mul_div_assoc, div_self h6, mul_one]
    exact hexc
  · have hne : (Z * (u * u) * (Z * (u * u)) + Z * (u * u) != 0) = true := by simp [h2]
    simp only [hne, if_true]
    have h4 : A * -(Z * (u * u) * (Z * (u * u)) + Z * (u * u)) ≠ 0 := mul_ne_zero hA0 (neg_ne_zero.mpr h2)
    refine finish_on_curve_w sgn0 hsr h4 (by ring) (by ring) (by ring) ?_
    intro _
    ring

end BronVerif.Lemmas.H2CSqrt
