import Mathlib.LinearAlgebra.Matrix.Adjugate
import BronVerif.Lemmas.PolyList
import BronVerif.Lemmas.GaussJordanDet
/-!
# Cramer's rule on list matrices (for `birkhoff.Interpolate`)
-/
namespace BronVerif.Lemmas.PolyBirkhoff
open BronVerif BronVerif.LinAlg BronVerif.Poly BronVerif.Lemmas.PolyList
open scoped BigOperators Matrix

variable {F : Type} [Field F]

/-- Cramer's rule (Mathlib's `Matrix.mulVec_cramer`) in the form the Go code uses:
`coeff_k = det(A with column k replaced by y) / det A` solves `A · coeff = y` -/
theorem cramer_solves {n : ℕ} (A : Matrix (Fin n) (Fin n) F) (y : Fin n → F) (h : A.det ≠ 0) :
    A *ᵥ (fun k => (A.updateCol k y).det * A.det⁻¹) = y := by
  have : (fun k => (A.updateCol k y).det * A.det⁻¹) = A.det⁻¹ • Matrix.cramer A y := by
    ext k; simp [Matrix.cramer_apply, mul_comm]
  rw [this, Matrix.mulVec_smul, Matrix.mulVec_cramer, smul_smul, inv_mul_cancel₀ h, one_smul]

theorem entry_setColumn (a : Mat F) (k : ℕ) (ys : List F) (i j : ℕ) (hi : i < a.length)
    (hi' : i < ys.length) (hk : k < (a.getD i []).length) :
    entry (setColumn a k ys) i j = if j = k then ys.getD i 0 else entry a i j := by
  unfold entry setColumn
  simp only [List.getD_eq_getElem?_getD, List.getElem?_zipWith, List.getElem?_eq_getElem hi,
    List.getElem?_eq_getElem hi', Option.getD_some, List.getElem?_set] at hk ⊢
  by_cases hjk : j = k
  · subst hjk; simp [hk]
  · simp [hjk, Ne.symm hjk]

omit [Field F] in
theorem setColumn_length (a : Mat F) (k : ℕ) (ys : List F) (h : ys.length = a.length) :
    (setColumn a k ys).length = a.length := by simp [setColumn, h]

omit [Field F] in
theorem setColumn_rows (a : Mat F) (k n : ℕ) (ys : List F) (hr : ∀ row ∈ a, row.length = n) :
    ∀ row ∈ setColumn a k ys, row.length = n := by
  intro row h
  obtain ⟨i, hi, rfl⟩ := List.mem_iff_getElem.mp h
  unfold setColumn at hi ⊢
  rw [List.getElem_zipWith, List.length_set]
  exact hr _ (List.getElem_mem _)

/-- Cramer's rule on list matrices, relative to a determinant routine `detF` that computes
`Matrix.det` on `n × n` list matrices -/
theorem cramer_list (detF : Mat F → F) (a : Mat F) (ys : List F) (n : ℕ)
    (ha : a.length = n) (hr : ∀ row ∈ a, row.length = n) (hy : ys.length = n)
    (hdet : ∀ m : Mat F, m.length = n → (∀ row ∈ m, row.length = n) → detF m = (toMatrix n m).det)
    (hne : detF a ≠ 0) :
    mulVec a ((List.range n).map fun k => detF (setColumn a k ys) * (detF a)⁻¹) = ys := by
  set A := toMatrix n a with hA
  set y : Fin n → F := fun i => ys.getD i 0 with hy'
  have hdA : detF a = A.det := hdet a ha hr
  have hcol : ∀ k : Fin n, detF (setColumn a k ys) = (A.updateCol k y).det := by
    intro k
    rw [hdet _ ((setColumn_length a k ys (hy.trans ha.symm)).trans ha) (setColumn_rows a k n ys hr)]
    congr 1
    ext i j
    have hi : (i : ℕ) < a.length := by rw [ha]; exact i.isLt
    have hrow : (a.getD i []).length = n := by
      rw [List.getD_eq_getElem?_getD, List.getElem?_eq_getElem hi, Option.getD_some]
      exact hr _ (List.getElem_mem _)
    show entry (setColumn a k ys) i j = _
    rw [entry_setColumn a k ys i j hi (by rw [hy]; exact i.isLt) (by rw [hrow]; exact k.isLt),
      Matrix.updateCol_apply]
    simp only [Fin.ext_iff]
    rfl
  have hsol := cramer_solves A y (by rw [← hdA]; exact hne)
  apply List.ext_getElem
  · simp [mulVec, ha, hy]
  · intro i h1 h2
    have hi : i < n := by simpa [mulVec, ha] using h1
    have hia : i < a.length := by rw [ha]; exact hi
    simp only [mulVec, List.getElem_map]
    have hrowlen : a[i].length = n := hr _ (List.getElem_mem _)
    rw [dot_eq_sum_range _ _ (by simp [hrowlen]), hrowlen]
    have := congrFun hsol ⟨i, hi⟩
    simp only [Matrix.mulVec, _root_.dotProduct] at this
    rw [Finset.sum_range]
    have hyi : y ⟨i, hi⟩ = ys[i] := by simp [hy', List.getD_eq_getElem?_getD, h2]
    rw [← hyi, ← this]
    apply Finset.sum_congr rfl
    intro j _
    rw [getD_map_range _ _ j.isLt, ← hcol j]
    congr 1
    · simp [hA, toMatrix, entry, List.getD_eq_getElem?_getD, hia]
    · rw [hdA]

end BronVerif.Lemmas.PolyBirkhoff
