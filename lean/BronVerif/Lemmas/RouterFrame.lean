import BronVerif.Lemmas.RouterInv
/-! How each step changes `entries`, `poison`, `log` (core-only). -/
namespace BronVerif.Router
set_option linter.unusedSectionVars false

variable {C P : Type} [DecidableEq C] [DecidableEq P]

theorem signal_fields (s : State C P) (cid : C) :
    (signal s cid).entries = s.entries ∧ (signal s cid).poison = s.poison ∧ (signal s cid).log = s.log ∧
    (signal s cid).buffered = s.buffered ∧ (signal s cid).stopped = s.stopped ∧ (signal s cid).fatal = s.fatal := by
  unfold signal; split <;> simp

theorem failWith_fields (s : State C P) (k : Fatal) :
    (failWith s k).entries = s.entries ∧ (failWith s k).poison = s.poison ∧ (failWith s k).log = s.log ∧
    (failWith s k).buffered = s.buffered ∧ (failWith s k).stopped = s.stopped ∧ (failWith s k).waiter = s.waiter := by
  unfold failWith; split <;> simp

/-- steps other than `deliver` and `scan` touch neither the stored payloads nor the poison marks -/
theorem step_frame (cfg : Config) (s : State C P) (st : Step C P)
    (hd : ∀ a b c, st ≠ .deliver a b c) (hs : ∀ c, st ≠ .scan c) :
    (step cfg s st).entries = s.entries ∧ (step cfg s st).poison = s.poison ∧
    (step cfg s st).buffered = s.buffered := by
  cases st with
  | deliver a b c => exact absurd rfl (hd a b c)
  | scan c => exact absurd rfl (hs c)
  | garbage sender =>
    simp only [step, garbageStep]
    split
    · simp
    · split
      · simp [failWith_fields]
      · simp
  | transportErr =>
    simp only [step, transportStep]
    split
    · simp
    · simp [failWith_fields]
  | attach cid exp =>
    simp only [step, attach]
    split
    · simp
    · split <;> simp
  | wakeToken cid => simp only [step, wake]; split; · simp
                     · split <;> simp
  | wakeCtx cid => simp only [step, wake]; split; · simp
                   · split <;> simp
  | wakeFailed cid => simp only [step, wake]; split; · simp
                      · split <;> simp
  | detach cid => simp only [step, detach]; split; · simp
                  · split <;> simp
  | cancel cid => simp only [step, cancelStep]; split <;> simp
  | close => simp [step, failWith_fields]

/-- the possible effects of a scan -/
theorem scan_cases (s : State C P) (cid : C) :
    ((scan s cid).entries = s.entries ∧ (scan s cid).buffered = s.buffered ∧ (scan s cid).poison = s.poison ∧
      ((scan s cid).log = s.log ∨ ∃ r, (∀ m, r ≠ Result.complete m) ∧ (scan s cid).log = (cid, r) :: s.log)) ∨
    (∃ w, s.waiter cid = some w ∧ w.phase = .running ∧ s.poison cid = none ∧ isComplete s cid w.exp = true ∧
      (scan s cid).entries = removeAll cid w.exp s.entries ∧ (scan s cid).poison = s.poison ∧
      (scan s cid).log = (cid, .complete (collected s cid w.exp)) :: s.log) := by
  unfold scan
  split
  · left; simp
  · rename_i w hw
    split
    · rename_i hph
      split
      · left; refine ⟨rfl, rfl, rfl, Or.inr ⟨_, ?_, rfl⟩⟩; intro m h; cases h
      · rename_i hpo
        split
        · rename_i hc
          right; exact ⟨w, hw, hph, hpo, hc, rfl, rfl, rfl⟩
        · split
          · left; refine ⟨rfl, rfl, rfl, Or.inr ⟨_, ?_, rfl⟩⟩; intro m h; cases h
          · split
            · left; refine ⟨rfl, rfl, rfl, Or.inr ⟨_, ?_, rfl⟩⟩; intro m h; cases h
            · left; simp
    · left; simp

end BronVerif.Router
