import Mathlib.Data.ZMod.Defs
import Mathlib.Data.ZMod.Basic
import Mathlib.FieldTheory.Finite.Basic
import Mathlib.Tactic.Ring
import BronVerif.Model.Fp
/-!
# The executable `Fp p` is a field (for prime `p`)

`instance : Field (Fp p)` whose `+ * - neg ⁻¹ / 0 1` are *exactly* the executable operations of
`Model/Fp.lean` (checked by the `rfl` examples below), so every theorem stated for an arbitrary
Mathlib `[Field F]` applies to what the driver runs.  The ring laws are inherited from Mathlib's
`Fin.instCommRing` (same `Fin.add/mul/sub`; only negation is spelled differently), the inverse law
is Fermat's little theorem transported along `ZMod.finEquiv`, and square-and-multiply (`Fp.pow`) is
shown to be `Monoid.npow`.
-/
namespace BronVerif.Fp
variable {p : ℕ}

/-- the executable negation `0 - a` is negation in `Fin p` -/
theorem neg_eq_fin_neg [NeZero p] (a : Fp p) :
    (-a : Fp p) = @Neg.neg (Fin p) (Fin.instCommRing p).toNeg a := by
  apply Fin.ext
  show ((p - a.1) + (0 % p)) % p = (p - a.1) % p
  simp

instance instCommRing [NeZero p] : CommRing (Fp p) :=
  { Fin.instCommRing p with
    add := fun a b => a + b
    mul := fun a b => a * b
    zero := (0 : Fp p)
    one := (1 : Fp p)
    sub := fun a b => a - b
    neg := fun a => -a
    neg_add_cancel := fun a => by
      rw [neg_eq_fin_neg]; exact (Fin.instCommRing p).neg_add_cancel a
    sub_eq_add_neg := fun a b => by
      rw [neg_eq_fin_neg]; exact (Fin.instCommRing p).sub_eq_add_neg a b
    zsmul_neg' := fun n a => by
      rw [neg_eq_fin_neg]; exact (Fin.instCommRing p).zsmul_neg' n a
    intCast_negSucc := fun n => by
      rw [neg_eq_fin_neg]; exact (Fin.instCommRing p).intCast_negSucc n }

/-! the ring structure uses the executable operations, definitionally -/
example [NeZero p] : (instCommRing.toAdd : Add (Fp p)) = instAdd := rfl
example [NeZero p] : (instCommRing.toMul : Mul (Fp p)) = instMul := rfl
example [NeZero p] : (instCommRing.toSub : Sub (Fp p)) = instSub := rfl
example [NeZero p] : (instCommRing.toNeg : Neg (Fp p)) = instNegOfNeZeroNat := rfl
example [NeZero p] : (Zero.toOfNat0 : OfNat (Fp p) 0) = instOfNatOfNeZeroNat := rfl
example [NeZero p] : (One.toOfNat1 : OfNat (Fp p) 1) = instOfNatOfNeZeroNat := rfl

/-! ## square-and-multiply is `Monoid.npow` -/

theorem powAux_eq [NeZero p] (fuel : ℕ) (b : Fp p) (e : ℕ) (acc : Fp p) (h : e < 2 ^ fuel) :
    powAux fuel b e acc = acc * b ^ e := by
  induction fuel generalizing b e acc with
  | zero =>
    have : e = 0 := by simpa using h
    subst this; simp [powAux]
  | succ fuel ih =>
    unfold powAux
    split_ifs with h0 h1
    · subst h0; simp
    · rw [ih _ _ _ (by omega)]
      conv_rhs => rw [← Nat.div_add_mod e 2, h1, pow_succ, pow_mul]
      ring
    · rw [ih _ _ _ (by omega)]
      have h2 : e % 2 = 0 := by omega
      conv_rhs => rw [← Nat.div_add_mod e 2, h2, add_zero, pow_mul]
      ring

theorem pow_eq [NeZero p] (a : Fp p) (e : ℕ) : pow a e = a ^ e := by
  unfold pow
  rw [powAux_eq _ _ _ _ Nat.lt_log2_self]
  exact one_mul _

/-! ## Fermat inverse; the field instance -/

section
open Fin.CommRing

/-- `Fp p` is `Fin p` with Mathlib's ring structure (identity map) -/
def equivFin [NeZero p] : Fp p ≃+* Fin p where
  toFun a := a
  invFun a := a
  left_inv _ := rfl
  right_inv _ := rfl
  map_mul' _ _ := rfl
  map_add' _ _ := rfl

/-- `Fp p ≃+* ZMod p` -/
def equivZMod [NeZero p] : Fp p ≃+* ZMod p := equivFin.trans (ZMod.finEquiv p)
end

/-- primality gives the `NeZero p` the executable operations need -/
scoped instance neZero_of_prime [h : Fact p.Prime] : NeZero p := ⟨h.out.ne_zero⟩

variable [Fact p.Prime]

/-- Fermat's little theorem for the executable field -/
theorem pow_card_sub_one (a : Fp p) (ha : a ≠ 0) : a ^ (p - 1) = 1 := by
  apply (equivZMod (p := p)).injective
  rw [map_pow, map_one]
  exact ZMod.pow_card_sub_one_eq_one ((map_ne_zero_iff _ (equivZMod (p := p)).injective).mpr ha)

theorem val_eq_zero_iff (a : Fp p) : a.val = 0 ↔ a = 0 := by
  constructor
  · intro h; apply Fin.ext; show a.1 = 0 % p; rw [Nat.zero_mod]; exact h
  · intro h; rw [h]; show 0 % p = 0; exact Nat.zero_mod p

theorem inv_zero' : inv (0 : Fp p) = 0 := by
  unfold inv; rw [if_pos ((val_eq_zero_iff 0).mpr rfl)]; rfl

theorem mul_inv_cancel' (a : Fp p) (ha : a ≠ 0) : a * inv a = 1 := by
  have h2 : 2 ≤ p := (Fact.out : p.Prime).two_le
  unfold inv
  rw [if_neg (fun h => ha ((val_eq_zero_iff a).mp h)), pow_eq, ← pow_succ']
  have : p - 2 + 1 = p - 1 := by omega
  rw [this]; exact pow_card_sub_one a ha

theorem zero_ne_one' : (0 : Fp p) ≠ 1 := by
  have h2 : 2 ≤ p := (Fact.out : p.Prime).two_le
  intro h
  have := congrArg Fin.val h
  change 0 % p = 1 % p at this
  rw [Nat.zero_mod, Nat.mod_eq_of_lt (by omega)] at this
  exact absurd this (by omega)

instance instField : Field (Fp p) :=
  { instCommRing with
    inv := fun a => a⁻¹
    div := fun a b => a / b
    exists_pair_ne := ⟨0, 1, zero_ne_one'⟩
    mul_inv_cancel := mul_inv_cancel'
    inv_zero := inv_zero'
    div_eq_mul_inv := fun _ _ => rfl
    nnqsmul := _
    nnqsmul_def := fun _ _ => rfl
    qsmul := _
    qsmul_def := fun _ _ => rfl }

example : (instField.toInv : Inv (Fp p)) = instInvOfNeZeroNat := rfl
example : (instField.toDiv : Div (Fp p)) = instDivOfNeZeroNat := rfl
example : (instField.toCommRing : CommRing (Fp p)) = instCommRing := rfl

end BronVerif.Fp
