import BronVerif.Lemmas.SharingInsert
/-!
# Dealing and reconstruction of the executable span-programme scheme (helper lemmas for C02)

`MSP.deal m r = M·r`, `MSP.reconstruct m S λ = ⟨c, λ_S⟩` for the reconstruction vector `c` the
mirrored solver returns.  `reconstruct_deal`: whenever the solver returns a vector for `S`,
reconstruction from the dealt shares of `S` returns the first entry of the random column;
`deal_add`, `deal_smul`: dealing is linear.
-/
namespace BronVerif.Lemmas.SharingDeal
open BronVerif.LinAlg BronVerif.Access BronVerif.Sharing BronVerif.Lemmas.SharingAccepts
open BronVerif.Lemmas.SharingInsert

variable {F : Type} [Field F]

theorem dot_nil_left (b : List F) : dot ([] : List F) b = 0 := by simp [dot_eq_list_sum]

theorem dot_cons (a : F) (as : List F) (b : F) (bs : List F) :
    dot (a :: as) (b :: bs) = a * b + dot as bs := by
  simp [dot_eq_list_sum]

theorem dot_add_right (row a b : List F) (h : a.length = b.length) :
    dot row (List.zipWith (· + ·) a b) = dot row a + dot row b := by
  induction row generalizing a b with
  | nil => simp [dot_nil_left]
  | cons x row ih =>
    cases a with
    | nil =>
      have : b = [] := List.length_eq_zero_iff.mp (by simpa using h.symm)
      subst this; simp [dot_eq_list_sum]
    | cons y a =>
      cases b with
      | nil => simp at h
      | cons z b =>
        simp only [List.length_cons, Nat.add_right_cancel_iff] at h
        rw [List.zipWith_cons_cons, dot_cons, dot_cons, dot_cons, ih a b h]
        ring

theorem dot_smul_right (row a : List F) (k : F) : dot row (a.map (k * ·)) = k * dot row a := by
  induction row generalizing a with
  | nil => simp [dot_nil_left]
  | cons x row ih =>
    cases a with
    | nil => simp [dot_eq_list_sum]
    | cons y a =>
      rw [List.map_cons, dot_cons, dot_cons, ih a]
      ring

/-- dealing is additive: `M·(r + r') = M·r + M·r'` -/
theorem deal_add (m : MSP F) (r r' : List F) (h : r.length = r'.length) :
    m.deal (vadd r r') = vadd (m.deal r) (m.deal r') := by
  unfold MSP.deal mulVec vadd
  rw [List.zipWith_map_left, List.zipWith_map_right, List.zipWith_self]
  refine List.map_congr_left fun row _ => ?_
  exact dot_add_right row r r' h

/-- dealing is homogeneous: `M·(k r) = k (M·r)` -/
theorem deal_smul (m : MSP F) (k : F) (r : List F) : m.deal (vsmul k r) = vsmul k (m.deal r) := by
  unfold MSP.deal mulVec vsmul
  rw [List.map_map]
  refine List.map_congr_left fun row _ => ?_
  exact dot_smul_right row r k

theorem pick_map {α β : Type} (f : α → β) (xs : List α) (idx : List ℕ) :
    Access.pick (xs.map f) idx = (Access.pick xs idx).map f := by
  unfold Access.pick
  induction idx with
  | nil => rfl
  | cons i idx ih =>
    rw [List.filterMap_cons, List.filterMap_cons, List.getElem?_map]
    cases xs[i]? with
    | none => simpa using ih
    | some v => simpa using ih

/-- `⟨c, R·r⟩ = Σ_j (Σ_i c_i R_ij) r_j` -/
theorem dot_mulVec (R : Mat F) (c r : List F) (n : ℕ) (hR : ∀ row ∈ R, row.length = n)
    (hr : r.length = n) (hc : c.length = R.length) :
    dot c (R.map fun row => dot row r) = ∑ j ∈ Finset.range n, wsum R c j * r.getD j 0 := by
  induction R generalizing c with
  | nil =>
    have : c = [] := List.length_eq_zero_iff.mp (by simpa using hc)
    subst this
    simp [dot_nil_left, wsum_nil]
  | cons row R ih =>
    cases c with
    | nil => simp at hc
    | cons a c =>
      simp only [List.length_cons, Nat.add_right_cancel_iff] at hc
      have hrow : row.length = n := hR row List.mem_cons_self
      have hcons : ∀ j, wsum (row :: R) (a :: c) j = row.getD j 0 * a + wsum R c j := by
        intro j; simp [wsum, colOf]
      rw [List.map_cons, dot_cons, ih c (fun row' h' => hR row' (List.mem_cons_of_mem _ h')) hc,
        dot_eq_sum row r n (by rw [hrow, hr]; simp), Finset.mul_sum, ← Finset.sum_add_distrib]
      refine Finset.sum_congr rfl fun j _ => ?_
      rw [hcons]
      ring

variable [DecidableEq F]

/-- **Reconstruction on the executable model.**  If the mirrored solver returns a reconstruction
vector for `S` (i.e. `S` is accepted), combining the dealt shares `M·r` of `S` with it returns the
secret `r₀`, whatever the rest of the random column is. -/
theorem reconstruct_deal (m : MSP F) (S : List ℕ) (r : List F) (hw : ∀ row ∈ m.mat, row.length = m.cols)
    (hr : r.length = m.cols) (hpos : 0 < m.cols) (hacc : m.accepts S = true) :
    m.reconstruct S (m.deal r) = some (r.getD 0 0) := by
  unfold MSP.accepts at hacc
  obtain ⟨c, hc⟩ := Option.isSome_iff_exists.mp hacc
  unfold MSP.reconstruct
  rw [hc]
  simp only [Option.bind_eq_bind, Option.bind_some, Option.pure_def, Option.some.injEq]
  -- what the solver guarantees
  have hsol : solveLeft (m.sub S) m.cols m.target = some c := by
    unfold MSP.reconVector at hc
    split_ifs at hc
    exact hc
  have htl : m.target.length = m.cols := by simp [MSP.target, unitVec]
  obtain ⟨hclen, hcm⟩ := Props.C20.solveLeft_sound (m.sub S) m.cols m.target htl c hsol
  rw [mulVec_transposeN] at hcm
  have hcols : ∀ j < m.cols, wsum (m.sub S) c j = if j = 0 then 1 else 0 := by
    intro j hj
    have := congrArg (fun l => l.getD j 0) hcm
    simpa [MSP.target, unitVec, List.getD_eq_getElem?_getD, List.getElem?_range hj] using this
  have hsubw : ∀ row ∈ m.sub S, row.length = m.cols := by
    intro row hrow
    unfold MSP.sub Access.pick at hrow
    obtain ⟨i, -, hi⟩ := List.mem_filterMap.mp hrow
    exact hw row (List.mem_of_getElem? hi)
  have hpick : Access.pick (m.deal r) (m.rowsOf S) = (m.sub S).map fun row => dot row r := by
    unfold MSP.deal mulVec MSP.sub
    exact pick_map _ _ _
  rw [hpick, dot_mulVec (m.sub S) c r m.cols hsubw hr hclen]
  rw [Finset.sum_eq_single 0]
  · rw [hcols 0 hpos]; simp
  · intro j hj hj0
    rw [hcols j (Finset.mem_range.mp hj), if_neg hj0, zero_mul]
  · intro h; exact absurd (Finset.mem_range.mpr hpos) h

end BronVerif.Lemmas.SharingDeal
