import Mathlib.Data.List.Nodup
import Mathlib.Data.List.Perm.Basic
import Mathlib.Data.Finset.Card
import Mathlib.Data.List.Dedup
import BronVerif.Lemmas.SharingVand
/-!
# The model's threshold programme accepts exactly the sets of at least `t` shareholders

List bookkeeping for `Access.sortedSet` / `Access.dedup` (core `eraseDups`, `mergeSort`) and the
tie `thresholdMSP_accepts` between `MSP.accepts` (the mirrored solver) on `thresholdMSP` and the
size of the set.
-/
namespace BronVerif.Lemmas.SharingThreshold
open BronVerif.LinAlg BronVerif.Access BronVerif.Lemmas.SharingAccepts BronVerif.Lemmas.SharingVand
open BronVerif.Lemmas.SharingModel

theorem nodup_eraseDups (l : List ℕ) : l.eraseDups.Nodup := by
  induction h : l.length using Nat.strong_induction_on generalizing l with
  | _ n ih =>
    cases l with
    | nil => simp
    | cons a as =>
      rw [List.eraseDups_cons, List.nodup_cons]
      refine ⟨?_, ih _ ?_ _ rfl⟩
      · intro hmem
        rw [List.mem_eraseDups, List.mem_filter] at hmem
        simpa using hmem.2
      · subst h
        exact Nat.lt_succ_of_le (List.length_filter_le _ _)

theorem mem_dedup {a : ℕ} {l : List ℕ} : a ∈ dedup l ↔ a ∈ l := by
  unfold dedup; exact List.mem_eraseDups

theorem nodup_dedup (l : List ℕ) : (dedup l).Nodup := nodup_eraseDups l

theorem sortedSet_perm (l : List ℕ) : (sortedSet l).Perm (dedup l) := by
  unfold sortedSet sortNat; exact List.mergeSort_perm _ _

theorem mem_sortedSet {a : ℕ} {l : List ℕ} : a ∈ sortedSet l ↔ a ∈ l :=
  ((sortedSet_perm l).mem_iff).trans mem_dedup

theorem nodup_sortedSet (l : List ℕ) : (sortedSet l).Nodup :=
  (sortedSet_perm l).nodup_iff.mpr (nodup_dedup l)

theorem length_sortedSet (l : List ℕ) : (sortedSet l).length = (dedup l).length :=
  (sortedSet_perm l).length_eq

theorem dedup_of_nodup (l : List ℕ) (hnd : l.Nodup) : dedup l = l := by
  unfold dedup
  induction l with
  | nil => rfl
  | cons a l ih =>
    rw [List.eraseDups_cons]
    have ha : a ∉ l := (List.nodup_cons.mp hnd).1
    have hf : l.filter (fun b => !b == a) = l := by
      rw [List.filter_eq_self]
      intro b hb
      have : b ≠ a := fun h => ha (h ▸ hb)
      simpa using this
    rw [hf, ih (List.nodup_cons.mp hnd).2]

/-- on an ascending duplicate-free list `sortedSet` is the identity (used to evaluate the model on
concrete policies: `mergeSort` is defined by well-founded recursion and does not reduce by `decide`) -/
theorem sortedSet_of_sorted (l : List ℕ) (hnd : l.Nodup) (hs : l.Pairwise (· ≤ ·)) : sortedSet l = l := by
  unfold sortedSet sortNat
  rw [dedup_of_nodup l hnd]
  exact List.mergeSort_of_pairwise (by simpa using hs)

/-- the members of `S` among a duplicate-free list containing `S` are as many as `S` has distinct members -/
theorem length_filter_contains (hs S : List ℕ) (hnd : hs.Nodup) (hS : ∀ s ∈ S, s ∈ hs) :
    (hs.filter fun a => S.contains a).length = (dedup S).length := by
  have h1 : (hs.filter fun a => S.contains a).Nodup := hnd.filter _
  rw [← List.toFinset_card_of_nodup h1, ← List.toFinset_card_of_nodup (nodup_dedup S)]
  congr 1
  ext a
  simp only [List.mem_toFinset, List.mem_filter, List.contains_iff_mem, mem_dedup]
  exact ⟨fun h => h.2, fun h => ⟨hS a h, h⟩⟩

variable {F : Type} [Field F] [DecidableEq F]

/-- **The executable threshold programme accepts `S` iff `S` has at least `t` distinct members**,
for shareholder IDs that are distinct and non-zero as field elements and `S` among them. -/
theorem thresholdMSP_accepts (t : ℕ) (ids S : List ℕ) (ht : 0 < t)
    (hid : Set.InjOn (Nat.cast : ℕ → F) {i | i ∈ ids}) (h0 : ∀ i ∈ ids, (i : F) ≠ 0)
    (hS : ∀ i ∈ S, i ∈ ids) :
    (thresholdMSP (F := F) t ids).accepts S = decide (t ≤ (dedup S).length) := by
  set hs := sortedSet ids with hhs
  have hmsp : thresholdMSP (F := F) t ids =
      { mat := hs.map (fun (id : ℕ) => powers (id : F) t), cols := t, holders := hs.map id } := by
    simp [thresholdMSP, hhs]
  by_cases hnil : S = []
  · subst hnil
    rw [accepts_nil]
    simp [dedup]; omega
  have hSh : ∀ i ∈ S, i ∈ hs := fun i hi => mem_sortedSet.mpr (hS i hi)
  have hlen := length_filter_contains hs S (nodup_sortedSet ids) hSh
  have hpos : 0 < (dedup S).length := by
    cases S with
    | nil => exact absurd rfl hnil
    | cons a S => exact List.length_pos_of_mem (mem_dedup.mpr (List.mem_cons_self))
  have hrows : (thresholdMSP (F := F) t ids).rowsOf S ≠ [] := by
    rw [hmsp]
    intro h
    have := rowsOf_length (F := F) hs (fun (id : ℕ) => powers (id : F) t) id t S
    rw [h] at this
    simp only [List.length_nil, id_eq] at this
    omega
  have hhold : ∀ i ∈ S, i ∈ (thresholdMSP (F := F) t ids).holders := by
    intro i hi; rw [hmsp]; simpa using hSh i hi
  rw [Bool.eq_iff_iff, accepts_iff _ S hhold hrows, decide_eq_true_iff, ← hlen]
  have hsub : (thresholdMSP (F := F) t ids).sub S =
      ((hs.filter fun a => S.contains a).map (Nat.cast : ℕ → F)).map
        fun y => (List.range t).map fun j => y ^ j := by
    rw [hmsp, sub_eq_filter]
    simp [powers_eq, Function.comp_def]
  have hcols : (thresholdMSP (F := F) t ids).cols = t := by rw [hmsp]
  rw [hsub, hcols]
  set L := hs.filter fun a => S.contains a with hL
  have hLmem : ∀ a ∈ L, a ∈ ids := fun a ha => mem_sortedSet.mp (List.mem_filter.mp ha).1
  have hnd : (L.map (Nat.cast : ℕ → F)).Nodup :=
    List.Nodup.map_on (fun a ha b hb h => hid (hLmem a ha) (hLmem b hb) h) ((nodup_sortedSet ids).filter _)
  have hnz : ∀ y ∈ L.map (Nat.cast : ℕ → F), y ≠ 0 := by
    intro y hy
    obtain ⟨a, ha, rfl⟩ := List.mem_map.mp hy
    exact h0 a (hLmem a ha)
  rw [spans_vandermonde_iff _ t ht hnd hnz, List.length_map]

end BronVerif.Lemmas.SharingThreshold
