import Mathlib.Algebra.Module.Basic
import Mathlib.Algebra.Ring.Basic
import Mathlib.Tactic.Ring
import Mathlib.Tactic.Abel
import BronVerif.Model.OT
import BronVerif.Model.Rvole
/-!
# Helper lemmas for C09: bit rows, the SoftSpoken linear form `lin`, rvole row algebra
-/
namespace BronVerif.Lemmas.OT
open BronVerif.OT BronVerif.Rvole

/-! ### bit rows -/

theorem xorRow_andRow_false (t x : List Bool) (h : t.length = x.length) :
    xorRow t (andRow false x) = t := by
  induction t generalizing x with
  | nil => simp [xorRow]
  | cons a t ih =>
    cases x with
    | nil => simp at h
    | cons b x =>
      simp only [List.length_cons, Nat.add_right_cancel_iff] at h
      have := ih x h
      simp [xorRow, andRow] at this ⊢
      exact this

theorem xorRow_mask_true (t0 t1 x : List Bool) (h0 : t0.length = x.length) (h1 : t1.length = x.length) :
    xorRow (receiverU t0 t1 x) t1 = xorRow t0 (andRow true x) := by
  induction t0 generalizing t1 x with
  | nil =>
    cases x with
    | nil => simp [xorRow, receiverU, andRow]
    | cons b x => simp at h0
  | cons a t0 ih =>
    cases x with
    | nil => simp at h0
    | cons b x =>
      cases t1 with
      | nil => simp at h1
      | cons c t1 =>
        simp only [List.length_cons, Nat.add_right_cancel_iff] at h0 h1
        have := ih t1 x h0 h1
        simp [xorRow, receiverU, andRow] at this ⊢
        refine ⟨?_, this⟩
        cases a <;> cases b <;> cases c <;> rfl

theorem getD_xorRow (a b : List Bool) (j : Nat) (h : a.length = b.length) :
    (xorRow a b).getD j false = (a.getD j false ^^ b.getD j false) := by
  induction a generalizing b j with
  | nil =>
    cases b with
    | nil => simp [xorRow]
    | cons y b => simp at h
  | cons x a ih =>
    cases b with
    | nil => simp at h
    | cons y b =>
      simp only [List.length_cons, Nat.add_right_cancel_iff] at h
      cases j with
      | zero => simp [xorRow]
      | succ j => simpa [xorRow] using ih b j h

theorem getD_andRow (d : Bool) (x : List Bool) (j : Nat) :
    (andRow d x).getD j false = (d && x.getD j false) := by
  induction x generalizing j with
  | nil => simp [andRow]
  | cons y x ih =>
    cases j with
    | zero => simp [andRow]
    | succ j => simpa [andRow] using ih j

/-- column `j` of the sender's matrix `q` (rows `t⁰ᵢ ⊕ Δᵢ·x'`) is column `j` of `t⁰` XOR `x'ⱼ·Δ` -/
theorem col_sender (rows : List (Bool × List Bool)) (x' : List Bool) (j : Nat)
    (hlen : ∀ r ∈ rows, r.2.length = x'.length) :
    col j (rows.map fun r => xorRow r.2 (andRow r.1 x'))
      = xorRow (col j (rows.map fun r => r.2)) (andRow (x'.getD j false) (rows.map fun r => r.1)) := by
  induction rows with
  | nil => simp [col, xorRow, andRow]
  | cons r rows ih =>
    have h0 := hlen r List.mem_cons_self
    have ih' := ih (fun r' hr' => hlen r' (List.mem_cons_of_mem _ hr'))
    have hl : r.2.length = (andRow r.1 x').length := by simp [andRow, h0]
    have hd := getD_xorRow r.2 (andRow r.1 x') j hl
    rw [getD_andRow] at hd
    simp only [col, List.map_cons, xorRow, andRow, List.zipWith_cons_cons] at ih' hd ⊢
    rw [ih', hd, Bool.and_comm]

theorem xorRow_xorRow_cancel (c d : List Bool) (h : c.length = d.length) :
    xorRow (xorRow c (andRow true d)) d = c := by
  induction c generalizing d with
  | nil => cases d <;> simp [xorRow, andRow]
  | cons y c ih =>
    cases d with
    | nil => simp at h
    | cons e d =>
      simp only [List.length_cons, Nat.add_right_cancel_iff] at h
      have := ih d h
      simp only [xorRow, andRow, List.map_cons, List.zipWith_cons_cons, Bool.true_and] at this ⊢
      rw [this]
      simp

/-! ### the linear form of the consistency check -/

section Lin
variable {K : Type} [CommRing K]

theorem lin_add (chi a b : List K) (h : a.length = b.length) :
    lin chi (List.zipWith (· + ·) a b) = lin chi a + lin chi b := by
  induction chi generalizing a b with
  | nil =>
    cases a with
    | nil =>
      cases b with
      | nil => simp [lin]
      | cons y b => simp at h
    | cons x a =>
      cases b with
      | nil => simp at h
      | cons y b => simp [lin]
  | cons c chi ih =>
    cases a with
    | nil =>
      cases b with
      | nil => simp [lin]
      | cons y b => simp at h
    | cons x a =>
      cases b with
      | nil => simp at h
      | cons y b =>
        simp only [List.length_cons, Nat.add_right_cancel_iff] at h
        simp only [List.zipWith_cons_cons, lin, ih a b h]
        ring

theorem lin_bsel (chi x : List K) (d : Bool) : lin chi (x.map (bsel d)) = bsel d (lin chi x) := by
  cases d
  · induction chi generalizing x with
    | nil => cases x <;> simp [lin, bsel]
    | cons c chi ih =>
      cases x with
      | nil => simp [lin, bsel]
      | cons y x =>
        have := ih x
        simp [lin, bsel] at this ⊢
        exact this
  · have : (x.map (bsel true)) = x := by
      induction x with
      | nil => rfl
      | cons y x ih => simp [bsel, ih]
    rw [this]; simp [bsel]

end Lin

/-! ### rvole rows -/

section Rv
variable {K M : Type} [CommRing K] [AddCommGroup M] [Module K M]

omit [CommRing K] [Module K M] in
theorem bobRow_aTilde (o : Inst K M) (a : M) : bobRow o (aTilde o a) = o.a0 + bselM o.beta a := by
  cases o with
  | mk g beta a0 a1 =>
    cases beta
    · simp [bobRow, gamma, bselM]
    · simp only [bobRow, aTilde, gamma, bselM, if_true]
      abel

end Rv

end BronVerif.Lemmas.OT
