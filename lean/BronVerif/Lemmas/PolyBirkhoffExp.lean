import Mathlib.LinearAlgebra.Matrix.Determinant.Basic
import BronVerif.Lemmas.PolyBirkhoff
import BronVerif.Lemmas.PolyMatrix
/-!
# Cofactor expansion on list matrices (for `birkhoff.InterpolateInExponent`)

`birkhoff.InterpolateInExponent` cannot run Cramer's rule on group elements; it expands the numerator
determinant along the replaced column: `det(A[c := y]) = Σ_r (-1)^{r+c} y_r det(minor_{r,c} A)`
(Laplace, Mathlib `Matrix.det_succ_column`) and evaluates the right-hand side in the exponent.
-/
namespace BronVerif.Lemmas.PolyBirkhoffExp
open BronVerif BronVerif.LinAlg BronVerif.Poly BronVerif.Lemmas.PolyList BronVerif.Lemmas.PolyBirkhoff
open scoped BigOperators Matrix

variable {F : Type} [Field F]

theorem getD_eraseIdx (row : List F) (c j : ℕ) :
    (row.eraseIdx c).getD j 0 = row.getD (if j < c then j else j + 1) 0 := by
  simp only [List.getD_eq_getElem?_getD, List.getElem?_eraseIdx]
  split <;> rfl

/-- `Minor(r, c)` entrywise (no shape hypotheses: short rows read as zero on both sides) -/
theorem entry_minor (a : Mat F) (r c i j : ℕ) :
    entry (minor a r c) i j = entry a (if i < r then i else i + 1) (if j < c then j else j + 1) := by
  unfold entry minor
  rw [← getD_eraseIdx]
  congr 1
  simp only [List.getD_eq_getElem?_getD, List.getElem?_map, List.getElem?_eraseIdx]
  have key : ∀ o : Option (List F), (o.map fun x => x.eraseIdx c).getD [] = (o.getD []).eraseIdx c := by
    intro o; cases o <;> simp
  split <;> exact key _

theorem toMatrix_minor {k : ℕ} (a : Mat F) (r c : Fin (k + 1)) :
    toMatrix k (minor a r c) = (toMatrix (k + 1) a).submatrix r.succAbove c.succAbove := by
  ext i j
  simp only [toMatrix, Matrix.submatrix_apply, entry_minor]
  congr 1
  · simp only [Fin.succAbove, Fin.lt_def, Fin.val_castSucc]; split <;> simp
  · simp only [Fin.succAbove, Fin.lt_def, Fin.val_castSucc]; split <;> simp

omit [Field F] in
theorem minor_shape (a : Mat F) (k r c : ℕ) (ha : a.length = k + 1)
    (hr : ∀ row ∈ a, row.length = k + 1) (hr' : r < k + 1) (hc : c < k + 1) :
    (minor a r c).length = k ∧ ∀ row ∈ minor a r c, row.length = k := by
  unfold minor
  constructor
  · simp [List.length_eraseIdx, ha, hr']
  · intro row h
    obtain ⟨row', h', rfl⟩ := List.mem_map.mp h
    have := hr row' (List.mem_of_mem_eraseIdx h')
    simp [List.length_eraseIdx, this, hc]

/-- Laplace expansion of the Cramer numerator along the replaced column, for a determinant routine
`detF` that computes `Matrix.det` on square list matrices of every size -/
theorem det_setColumn_eq_cofactor_sum (detF : Mat F → F)
    (hdet : ∀ (n : ℕ) (m : Mat F), m.length = n → (∀ row ∈ m, row.length = n) →
      detF m = (toMatrix n m).det)
    (a : Mat F) (ys : List F) (n c : ℕ) (ha : a.length = n) (hr : ∀ row ∈ a, row.length = n)
    (hy : ys.length = n) (hc : c < n) :
    detF (setColumn a c ys)
      = dot ((List.range n).map fun r =>
          let d := detF (minor a r c); if (r + c) % 2 ≠ 0 then -d else d) ys := by
  obtain ⟨k, rfl⟩ : ∃ k, n = k + 1 := ⟨n - 1, by omega⟩
  rw [hdet (k + 1) _ ((setColumn_length a c ys (hy.trans ha.symm)).trans ha)
    (setColumn_rows a c (k + 1) ys hr)]
  rw [Matrix.det_succ_column _ (⟨c, hc⟩ : Fin (k + 1)), dot_eq_sum_range _ _ (by simp [hy])]
  simp only [List.length_map, List.length_range]
  rw [Finset.sum_range]
  apply Finset.sum_congr rfl
  intro i _
  have hi : (i : ℕ) < a.length := by rw [ha]; exact i.isLt
  have hrow : (a.getD i []).length = k + 1 := by
    rw [List.getD_eq_getElem?_getD, List.getElem?_eq_getElem hi, Option.getD_some]
    exact hr _ (List.getElem_mem _)
  have hentry : toMatrix (k + 1) (setColumn a c ys) i ⟨c, hc⟩ = ys.getD i 0 := by
    show entry (setColumn a c ys) i c = _
    rw [entry_setColumn a c ys i c hi (by rw [hy]; exact i.isLt) (by rw [hrow]; exact hc)]
    simp
  have hsub : (toMatrix (k + 1) (setColumn a c ys)).submatrix i.succAbove (⟨c, hc⟩ : Fin (k + 1)).succAbove
      = toMatrix k (minor a i c) := by
    rw [toMatrix_minor a i ⟨c, hc⟩]
    ext p q
    simp only [Matrix.submatrix_apply]
    have hp : ((i.succAbove p : Fin (k + 1)) : ℕ) < a.length := by rw [ha]; exact (i.succAbove p).isLt
    have hrow' : (a.getD (i.succAbove p : Fin (k + 1)) []).length = k + 1 := by
      rw [List.getD_eq_getElem?_getD, List.getElem?_eq_getElem hp, Option.getD_some]
      exact hr _ (List.getElem_mem _)
    show entry (setColumn a c ys) _ _ = entry a _ _
    rw [entry_setColumn a c ys _ _ hp (by rw [hy]; exact (i.succAbove p).isLt)
      (by rw [hrow']; exact hc)]
    have hne : ((⟨c, hc⟩ : Fin (k + 1)).succAbove q : Fin (k + 1)) ≠ ⟨c, hc⟩ := Fin.succAbove_ne _ _
    rw [if_neg (fun h => hne (Fin.ext h))]
  rw [hentry, hsub, getD_map_range _ _ i.isLt]
  obtain ⟨hml, hmr⟩ := minor_shape a k i c ha hr i.isLt hc
  rw [← hdet k _ hml hmr]
  rcases Nat.even_or_odd ((i : ℕ) + c) with he | ho
  · rw [if_neg (by simpa [Nat.even_iff] using he), he.neg_one_pow]; ring
  · rw [if_pos (by simpa [Nat.odd_iff] using ho), ho.neg_one_pow]; ring

end BronVerif.Lemmas.PolyBirkhoffExp
