import BronVerif.Model.Util
