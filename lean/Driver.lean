import BronVerif.Drive.C01
import BronVerif.Drive.C02
import BronVerif.Drive.C03
import BronVerif.Drive.C04
import BronVerif.Drive.C05
import BronVerif.Drive.C06
import BronVerif.Drive.C07
import BronVerif.Drive.C08
import BronVerif.Drive.C09
import BronVerif.Drive.C10
import BronVerif.Drive.C11
import BronVerif.Drive.C12
import BronVerif.Drive.C13
import BronVerif.Drive.C14
import BronVerif.Drive.C15
import BronVerif.Drive.C16
import BronVerif.Drive.C17
import BronVerif.Drive.C18
import BronVerif.Drive.C19
import BronVerif.Drive.C20
/-!
Line-protocol driver.  Reads harness lines `<PROP> <op> <args…> => <rhs>` on stdin and prints one
verdict per line (`OK`, `DIFF model=…`, `BAD key=… …`, `UNSUPPORTED …`).  Lines starting with `#`
or `!` are echoed as `SKIP`.  Core-only: everything imported here is Mathlib-free so that this
file links as a native executable.
-/
open BronVerif BronVerif.Drive

def dispatch (prop op : String) (args : List String) (rhs : String) : Verdict :=
  match prop with
  | "C01" => C01.handle op args rhs
  | "C02" => C02.handle op args rhs
  | "C03" => C03.handle op args rhs
  | "C04" => C04.handle op args rhs
  | "C05" => C05.handle op args rhs
  | "C06" => C06.handle op args rhs
  | "C07" => C07.handle op args rhs
  | "C08" => C08.handle op args rhs
  | "C09" => C09.handle op args rhs
  | "C10" => C10.handle op args rhs
  | "C11" => C11.handle op args rhs
  | "C12" => C12.handle op args rhs
  | "C13" => C13.handle op args rhs
  | "C14" => C14.handle op args rhs
  | "C15" => C15.handle op args rhs
  | "C16" => C16.handle op args rhs
  | "C17" => C17.handle op args rhs
  | "C18" => C18.handle op args rhs
  | "C19" => C19.handle op args rhs
  | "C20" => C20.handle op args rhs
  | _ => .unsupported ("property " ++ prop)

def handleLine (line : String) : String :=
  let line := line.trimAscii.toString
  if line.isEmpty || line.startsWith "#" || line.startsWith "!" then "SKIP" else
  match line.splitOn " => " with
  | [lhs, rhs] =>
    match (lhs.splitOn " ").filter (· ≠ "") with
    | prop :: op :: args => (dispatch prop op args rhs.trimAscii.toString).render
    | _ => "UNSUPPORTED malformed-lhs"
  | _ => "UNSUPPORTED malformed-line"

/-- read up to `n` lines; `eof = true` when the input is exhausted -/
partial def readBatch (hin : IO.FS.Stream) (n : Nat) (acc : Array String) : IO (Array String × Bool) := do
  if acc.size ≥ n then return (acc, false)
  let line ← hin.getLine
  if line.isEmpty then return (acc, true)
  readBatch hin n (acc.push line)

/-- Lines are independent (every handler is a pure function of its line), so a batch is evaluated
by the task pool and the verdicts are printed in input order: the output is byte-identical to the
sequential loop. `LEAN_NUM_THREADS` bounds the pool. -/
partial def loop (hin hout : IO.FS.Stream) : IO Unit := do
  let (batch, eof) ← readBatch hin 64 #[]
  let tasks := batch.map fun line => Task.spawn fun _ => handleLine line
  for t in tasks do
    hout.putStrLn t.get
  hout.flush
  if eof then return () else loop hin hout

def main : IO Unit := do
  let hin ← IO.getStdin
  let hout ← IO.getStdout
  loop hin hout
  hout.flush
